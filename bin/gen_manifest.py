#!/usr/bin/env python3
"""Generates /verif/MANIFEST.json from the table below (single source of truth for the check registry)."""
import json, subprocess, sys

ALL = ["C%02d" % i for i in range(1, 21)]

# id -> (engine, level, technique, text, note, design_ref)
CHECKS = {
 "C03": ("mc-seq", "fault_enumeration",
   "complete enumeration of stated mutation neighbourhoods (truncation, byte substitution, field boundary values, splices, grammar products) of a seed corpus through the whole real ingestion/analysis chain, with crash isolation",
   "Cannot be decided for all byte strings by enumeration; decided is crash-freedom on an exhaustively enumerated neighbourhood: every truncation point, every offset x 7 substitution values, every recorded header / type-info / length / numeric / service-id / timestamp field x boundary table, every message-boundary splice of generated seeds, adjacent field pairs (thorough), every offset replaced by a multi-byte character (text seeds) and grammar products of text lines, every pair of fields at most 8 apart x corner values of the file-transfer seed, limit-size text cases (tags / bus names of 65490..70000 bytes, seconds around 2^32, 2^63/10^6, 2^64/10^6), plus uncorrupted multi-lifecycle histories (the boot-trace product of the C08 explorer as DLT files; every event sequence to depth 3/6 over the alphabets of the C05-C07 explorer through detection + listing), each run through reader -> text rendering -> re-serialisation -> EAC statistics -> lifecycle detection and listing -> time sort -> filters -> all built-in plugins, with overflow checks on, panics caught with their location, worker death attributed to the announced case, and an allocation rule (no request >= 32 MiB that the unmutated seeds never make).",
   "Trusted: seed corpus and field maps of the harness. Not covered: byte strings outside the neighbourhoods, BLF input, FIBEX/JSON plugin configurations other than the repository's.", "4 C03"),
 "C17": ("mc-seq", "model_checking",
   "exhaustive enumeration of transfer shapes x single faults x interleavings x configurations through the real file-transfer plugin API, file-system sandbox scan as oracle",
   "Every content length 1..9 x package size x single fault (drop / duplicate at every later position / swap / grow / shrink a package, drop FLST, drop FLFI) x 10 configs x both byte orders, with unrelated and near-miss messages at every position; 1-3 concurrent transfers differing in exactly one of serial / ECU / lifecycle under every interleaving (also with the first transfer's announcement or end marker repeated); 12 announced file names x globs x pre-existing entries (file, directory, dangling symlink, symlink to file) x directory states; hostile FLST size announcements (>= 64 MiB products in a child process); completing one-package transfers whose announced buffer size lies around and above the 16 MiB pre-allocation bound. Oracle: complete iff all packages in order (duplicates tolerated), saved (through the tree item by occurrence and through the item of the 'Sorted by name' view) and auto-saved bytes equal the original, nothing damaged saved as complete, sandbox scan shows no write outside the configured directory and no overwritten entry.",
   "Trusted: harness verbose-payload encoder and sandbox scanner. Not covered: multiple faults per transfer, a repeated package number with different bytes, file-system races.", "4 C17"),
 "C14": ("mc-cli", "exploration",
   "full product of convert option combinations x input-file permutations against the freshly built adlt binary, reference selection computed in the harness",
   "Every combination of -b/-e/--lcs/--eac/-f (DLF and dlt-convert format)/--sort/output style/-o and every order of four generated input files (two boots of ECU1 with garbage, ECU2 with one late-delivered message so that --sort order and index order disagree, a continuation file, a file carrying both ECUs; plus a duplicated file argument), a DLF file with enabled marker/event filters, export-of-export is run through the adlt binary built from the working tree; printed indices, their order, the shown text and the re-read -o file must equal the selection the harness derives from the option meanings on the generated messages (merged order, lifecycle ids, independent --eac evaluation).",
   "Trusted: harness-side option semantics; one generated 20-message input set. Lifecycle ids of a fresh process are assumed to count from 1 in creation order (the check would fail on the unchanged tree otherwise).", "4 C14"),
 "C18": ("mc-seq", "exploration",
   "exhaustive enumeration of typed argument sequences x encoders x every truncation point x every single field corruption on the real verbose payload encoder/decoder/renderer",
   "All argument sequences of length 0..2/3 over a 119-symbol value alphabet (every type and width, extremes, NaN/inf, empty/NUL/control/non-UTF-8/maximal strings incl. byte-order-mark look-alikes at the start, raw) and longer ones over sub-alphabets, through payload_from_args (both byte orders), the serde Serializer and dlt_args!; every cut of the encoded payload; every replacement of each type-info (boundary table, 32 bit flips, TYLE values, unsupported kinds) and 16-bit length field. Oracle: same count/types/raw bytes; text matches an independently written canonical matcher (only what the statement fixes); truncated => prefix; corrupted field j => arguments before j intact; returned slices inside the payload; no panic.",
   "Trusted: harness-side canonical text matcher. Float spelling and display of non-UTF-8 bytes are deliberately not bound.", "4 C18"),
 "C09": ("mc-seq", "exploration",
   "exhaustive enumeration of source families (sizes x reception-time tuples x start indices x constructors) on the real merge / chain iterators",
   "Every family of <= 3-5 sources with <= 2-4 messages and all reception-time tuples over a small grid (equal, increasing, unordered) and over the corners of the u64 time range (0, 1, 2^63-1, 2^63, 2^63+1, 2^64-2, 2^64-1), through all seven constructor variants (merge, merge-or-single, chain, chain-or-single with exact, filtered, (1,Some(n)) and (1,None) size hints), Vec-backed and real DltMessageIterator-backed, merge-of-chains as adlt convert builds it, every placement of empty sources, and (in a subprocess) chains of up to 10^4 (quick) / 10^6 (thorough) empty sources. Oracle: multiset equality, per-source order, consecutive indices from the start index, reception-time order when every source is ordered, chain = concatenation.",
   "Trusted: harness tags in payloads. The documented single-source shortcut (own indices) is judged by its documentation.", "4 C09"),
 "C10": ("mc-seq", "exploration",
   "exhaustive enumeration of message streams x lifecycle tables x windows x minimum delays on the real buffer_sort_messages, cases classified by the property's premise",
   "All streams up to length 2-6 over per-family alphabets (lifecycle id incl. unknown, reception step incl. -1 s, absolute timestamps or lateness grid bracketing the minimum delays, normal/control request) x windows {1,3,255} (edges 1-4) x minimum delays {0,1 s,20 s} x 4 lifecycle tables x index modes (position / all 0 / per-ECU numbering, i.e. duplicate indices as merged or index-less sources produce them), plus deviation-bounded long streams. O1 on every case: output is a permutation of the input (full message equality). O2 on the cases the generator classifies as satisfying the premise: stable order by (calculated time, original position). Every case is counted in exactly one class (premise holds / reception decreases / delay above minimum / undefined for unknown lifecycle).",
   "Trusted: harness-side calculated-time model. Not covered: a lifecycle table changing while sorting, window size 0.", "4 C10"),
 "C19": ("mc-seq", "exploration",
   "exhaustive enumeration of ordered plugin subsets x message pool / tuples / payload prefixes on the real plugin chain; id-population sweep and lifecycle-stream families through the real anonymiser + detector",
   "All 326 ordered subsets of {NonVerbose, SomeIp, CAN, Muniic, Rewrite} (configured from the repository's FIBEX/JSON files) x an 82-template message pool (hits, near misses, truncated, cross-plugin), all ordered pairs and stateful-group tuples, every payload prefix of 18 targets, file-transfer sub-streams (incl. messages without extended header) x 12 configs (no id filter, APID+CTID, APID only, CTID only); `adlt convert --anon -o` through the binary: same count and order, index/reception time/ECU/payload/lifecycle/standard header untouched, only text / a missing extended header / (Rewrite) the timestamp may change, only FLDA packages may be dropped. Anonymiser: populations 1..999 per dimension (functional + injective maps, times untouched) and every lifecycle-explorer stream to depth 3/4 (+ written-and-reparsed and decorated variants): canonical lifecycle table and per-message assignment identical before and after.",
   "Trusted: harness-side FLDA recogniser and canonicalisation. Pseudonym scope judged per ECU / per ECU+APID (the scheme's counters); capacity bound 999 stated, beyond it not judged.", "4 C19"),
 "C20": ("mc-seq", "model_checking",
   "stateless exhaustive exploration of read/seek operation sequences on the real SeekableChain against std::io::Cursor; exhaustive archive/pattern/sandbox product on the real extraction code",
   "Chain: every split of a byte string of length <= 6 into <= 3 volumes (empty ones included; in-memory, 1-byte-read and real-file volumes) x every sequence of read/seek operations up to depth 4 (quick) / 5-6 (thorough), each on a fresh chain, compared with a Cursor over the concatenation (sequences the reference rejects are counted and excluded). Extraction: hand-written zip containers with hostile member names (.., absolute, aliases, duplicates, empty, directory entries, > 64 KiB, a name that is itself a glob next to the name it matches) x glob patterns x pre-existing foreign files x extract_archives / extract_to_dir, every multi-volume cut, and a skipped-member size sweep past the zip reader's EOCD window; each case in its own sandbox that is snapshotted before and after: nothing created/modified outside, contents identical, reported set = matching members whose names stay inside.",
   "Trusted: the harness' zip writer and sandbox snapshot. Not covered: deflate members, symlinks, libarchive formats, streams longer than 6 bytes / more than 3 volumes.", "4 C20"),
 "C16": ("mc-remote", "model_checking",
   "exhaustive enumeration of arrival batchings / windows / filters / window changes / search pagings, executed on the real stream code (library) and on the real server handlers via the in-binary driver",
   "Library: every log of N<=6/8 messages x 2^N match patterns x stream/query x window ends x chunk sizes x every composition of N into arrival batches (x window extensions) on the real process_stream_new_msgs, judged after every tick. Server: ~2500 (quick) / ~14k (thorough) scripted sessions on the real handlers - every filter set (7, one with two event filters) x window x kind x binary/text x arrival batching, one window change after every tick, all search pagings, index/time lookups for every message (sorted and unsorted; the two ECUs' lifecycles start 40 s apart) - compared with the filtered log computed from the generated file.",
   "Trusted: driver hook, generated 6-message log, harness-side expected filtered log. Not covered: logs with several lifecycles per ECU for the time lookup, plugins altering the stream.", "4 C16"),
 "C11": ("mc-seq", "exploration",
   "exhaustive enumeration of abstract filters x message universe against an independent spec evaluator, through every library front-end",
   "All 256 criterion subsets x negated x enabled x kind, every single-criterion variant (incl. all 256 type bytes), all variant pairs, triples and (thorough) a full 8-criterion product are built through each front-end that can express them (JSON explicit/defaulted, DLF in two layouts, dlt-convert list, public fields as the --eac front-end sets them) and evaluated on a 1753-message universe against a three-valued spec evaluator written from the statement; JSON round trip must decide identically. Where statement and documentation leave the semantics undefined only agreement between front-ends is judged.",
   "Trusted: the harness' spec evaluator. The --eac text parser itself is exercised through the binary under C14.", "4 C11"),
 "C12": ("mc-seq", "exploration",
   "exhaustive enumeration of filter tuples x message stream on both set-matching implementations against the statement's rule",
   "All ordered tuples of <= 4 (thorough 6) filters from a 19-filter pool (every kind x enabled/disabled x plain/negated, overlapping criteria) are run through filter_as_streams over a real channel, match_filters behind StreamContext::from and the remote stream path process_stream_new_msgs (stream and query, chunk limits 1/2/unbounded) on a 30-message stream, the real ExportPlugin configured with every filter set of <= 2 (thorough 3) filters (the file it writes = the statement's selection), and 441 paged stream_search sessions run on the real server handlers through the in-binary driver (union of pages = matching stream positions): selection, messages unchanged and in order, passed+filtered = received, event-AND clause, agreement of the two implementations.",
   "Trusted: spec evaluator shared with C11.", "4 C12"),
 "C15": ("mc-remote", "model_checking",
   "explicit-state BFS over command histories (dedup on canonical session state), every transition executed on the real remote handlers via the cfg-guarded in-binary driver; reference session model as oracle",
   "Breadth-first search from the initial state (depth 4 quick / 6 thorough), from 7 prepared non-initial states (incl. a session opened with two plugins of the same name and one without command support) over a 59-symbol alphabet, and two deeper searches (depth 4/3 quick, 6/5 thorough, own seen-set) over the 10 session-flow commands (pause/resume/stream/query/stop/window change/ticks) from a drained one-pass and a drained collect-all session; plus the stateless `fs` command over a 102-element (cmd, path) product (directories, files, zip archives with members / without entries / corrupt / truncated, archive-internal and malformed paths) in closed and open sessions; plus close under back-pressure (700k / 1.8M-message file, pipeline blocked on its full channels) and (thorough) a TCP conformance replay of explored histories against `adlt remote` of valid, malformed, out-of-order and mistyped commands and message-arrival ticks; every transition re-executes the history on process_incoming_text_message / process_file_context inside the adlt binary (in-memory websocket). A reference session model decides: one reply frame of the right form per command and none on ticks, no panic, reply classes for open/close/pause/resume/stream/stop/change-window and for stale/never-issued/non-numeric ids, fresh ids, open flag and stream set consistent with the replies, frames only for live streams, every step (incl. close) returns within the watchdog.",
   "Trusted: the driver hook (verif_driver.rs; 3 inserted statements in process_file_context, inert unless armed), the abstraction of the socket event loop by explicit ticks, the dedup assumption stated in the evidence. Not covered: socket I/O errors, the TCP accept path (thorough replays explored histories over a real websocket).", "4 C15"),
 "C08": ("mc-seq", "exploration",
   "exhaustive enumeration of ground-truth boot traces (parameters x permutations x interleavings) on the real lifecycle stage",
   "Every trace of the stated product (1-3 ECUs, 1-3 boots, timestamp profiles, per-boot delays, off-times, all message permutations inside a boot, all interleavings of the ECU streams; plus a family whose message indices are 100 001 apart so that the detector's index-scheduled regular table refresh falls after every forwarded message) that satisfies the property's premise is run through the real detector and compared with the generator's ground truth: one lifecycle per boot, message assignment, start = boot+delay, end = start+max timestamp, counts. Candidates outside the premise are counted, not judged.",
   "Trusted: ground-truth generator. Known finding (delay drop > off-time fuses boots) is keyed by a predicate on the ground truth; everything outside it is judged exactly.", "4 C08"),
 "C13": ("mc-sched", "model_checking",
   "controlled-scheduler exploration of real threads (shuttle runtime, own delay-/preemption-bounded DFS scheduler) over the real stage functions and bounded channels, 6 message streams",
   "All schedules within the stated delay bound (every pipeline shape) and preemption bound (the shapes where it stays feasible) of 3-6 real threads running adlt's real stage functions over real sync_channels of capacity 0/1/2 written through the real blocking-send helper are executed; drained pipelines must equal the sequential unbounded reference (sequence, or multiset when sorted, and final lifecycle table; a consumer that follows the table incrementally by lcs_w_refresh_idx - the protocol of remote.rs - and polls before every receive must end with the final table's values), dropped consumers must let every thread terminate (shuttle reports a deadlock otherwise). Also checks in the consumer thread that each delivered message's lifecycle is already published (C06, cross-thread).",
   "Trusted: shuttle's modelling of mpsc channels/sleep/spawn/join; adlt built with cfg adlt_verif_sched (channel import switch only). Not covered: weak-memory effects, production channel capacities, schedules beyond the bounds.", "4 C13"),
 "C01": ("mc-seq", "exploration",
   "exhaustive enumeration of a message-shape x garbage x framing product on the real DltMessageIterator against an independent byte builder",
   "Every stream of the stated finite product (all 32 header-flag sets, payload sizes incl. maximum, id/counter variants, 12 garbage lengths x 8 contents before/between/after, both framings, singles / all ordered shape pairs / core triples; and msg-garbage-msg-msg-msg streams with every garbage length 0..8300 (thorough 16584) read through the real LowMarkBufReader(8 KiB, low mark 4 KiB) over sources with full, 5000-byte (thorough also 4096/1000/1-byte) reads, with small messages and with 3-3.9 KB messages close to the low mark; and through LowMarkBufReader(512 KiB, low mark = DLT_MAX_STORAGE_MSG_SIZE / DLT_MIN_PARSER_LOOKAHEAD_SIZE as the repository's file readers use them) with a maximum-size message starting at every buffered-byte count 65490..65610 (thorough 64000..67000)) is parsed by the real iterator and compared field by field with an independently written builder, incl. the skipped/processed counters. Coverage statement for the product, not for all byte values.",
   "Trusted: the harness' byte builder and the marker scanner that enforces the property's premise. Not covered: payload/garbage byte values outside the pattern sets.", "4 C01"),
 "C02": ("mc-seq", "exploration",
   "exhaustive enumeration of parsed-message shapes through to_write / re-parse / to_write",
   "Every message of the stated product (32 flag sets x both framings x payload sizes incl. every size 0..max for selected shapes x id sets x reception/timestamp corners) and every sequence of <= 5/6 pool messages (incl. payloads containing frame markers), and a 600 KB normal-form file read the way `adlt convert` reads it (LowMarkBufReader 512 KiB, low mark = DLT_MIN_PARSER_LOOKAHEAD_SIZE and DLT_MAX_STORAGE_MSG_SIZE) with a near-maximum message starting at every buffered-byte count 65380..65720 (thorough 60000..70000), and (through the binary) `adlt convert -o` on files with a near-maximum first / inner / last message, is exported with the real writer, re-read with the real parser and exported again: consumed == written, fields equal, second export byte-identical, streams keep order and count.",
   "Trusted: harness builder/comparison. The option product of the CLI is C14's.", "4 C02"),
 "C04": ("mc-seq", "model_checking",
   "explicit-state BFS by re-execution over reader operations (dedup on canonical state) + exhaustive read-size schedule enumeration for the iterator",
   "Reader: from the initial state every sequence of 19 operations (fill/consume/read/seek with state-relative arguments) is explored breadth-first per configuration with state deduplication (and an undeduplicated tree to depth 4/5), each transition executed on the real LowMarkBufReader over a scripted short-read source and compared with a byte-vector + cursor model. Iterator: 10 streams x 3 capacities x ~300 read-size schedules (constants incl. 1 byte, all single and double deviations in the first 12 calls) must give identical messages and counters; whole-message suffixes parse to the tail.",
   "Trusted: harness model (byte vector + cursor), fingerprint argument (see evidence rule). Low mark = adlt::dlt::DLT_MIN_PARSER_LOOKAHEAD_SIZE, the constant the production call sites pass.", "4 C04"),
 "C05": ("mc-seq", "model_checking",
   "stateless bounded exhaustive exploration of event sequences (full depth + deviation-bounded + two-phase) on the real lifecycle stage",
   "Every event sequence in the stated bounds (all sequences to depth 3/4 over a 40-symbol alphabet derived from the detector's thresholds; all length-8..12 sequences with <=3..4 deviations over 48 symbols; all prefix/suffix splits over a shared table (40-symbol alphabet to depth 3/4; suspend/resume alphabet: all splits to depth 5, the last ones to depth 7/8); all sequences to depth 6/8 over a 10-symbol suspend/resume alphabet; the same sequences with message indices 100 001 / 50 001 apart so that the index-scheduled regular table refresh falls between the messages) is executed on parse_lifecycles_buffered_from_stream and compared with the identity stream: same messages, same order, lifecycle id non-zero and of the message's ECU. A coverage statement for the bounds, not a proof for unbounded streams.",
   "Trusted: the harness' stream generator and comparison code; alphabet choice (thresholds 1/2/10/30/60 s from both sides). Not covered: timestamps/reception deltas outside the alphabet, >3 ECUs.", "4 C05-C07"),
 "C06": ("mc-seq+mc-sched", "model_checking",
   "stateless bounded exhaustive exploration of event sequences with a table lookup inside every downstream-sender call + controlled-scheduler exploration with the lookup in the consumer thread",
   "Same exploration as C05; the oracle looks the message's lifecycle id up through an evmap ReadHandle inside every call of the downstream sender (the delivery point) and requires an entry of the message's ECU. The same check then runs under the scheduler engine: producer -> real lifecycle stage -> [sort] -> consumer thread over bounded channels of capacity 0/1/2, 8 streams driving every release path, every schedule within delay bound 2 (thorough 4) / preemption bound 1 (thorough 2): the consumer thread looks every received message up through its own read handle at reception (evidence key coverage.cross_thread).",
   "Trusted: evmap's publication semantics (a refresh makes entries visible to all readers); harness code.", "4 C05-C07"),
 "C07": ("mc-seq", "model_checking",
   "stateless bounded exhaustive exploration of event sequences; final-table and listing oracle",
   "Same exploration as C05; after the stream ends the published table is compared with the delivered messages (every listed id referenced, nr_msgs = delivered count, counts sum to the number of messages, no merged entry) and get_sorted_lifecycles_as_vec is called (no panic, each id once, resume after its origin via the cfg accessor, start-time order when no resume).",
   "Trusted: harness code; the cfg(adlt_verif) accessor Lifecycle::verif_resume_origin.", "4 C05-C07"),
}

NOT_YET = "check not built yet in this round (planned, see DESIGN.md section 4)"

def main():
    checks = []
    for pid in ALL:
        if pid not in CHECKS: continue
        eng, level, tech, text, note, ref = CHECKS[pid]
        checks.append({
            "property_id": pid,
            "quick_cmd": f"./bin/check {pid} quick",
            "thorough_cmd": f"./bin/check {pid} thorough",
            "evidence_file": f"/verif/evidence/{pid}.json",
            "replay_cmd_template": f"./bin/check {pid} --replay {{path}}",
            "engine": eng,
            "level_claimed": {"category": level, "text": text, "design_ref": "DESIGN.md section " + ref},
            "level_note": note,
            "technique": tech,
        })
    hooks_commits = subprocess.run(["git","-C","/repo","log","--format=%H %s"],capture_output=True,text=True).stdout.splitlines()
    hook_ids = [l.split()[0] for l in hooks_commits if " verif hook" in l]
    m = {
      "version": 1,
      "setup_cmd": "cd /verif/mc && CARGO_NET_OFFLINE=true cargo build --release --offline && cd /verif/mc-sched && CARGO_NET_OFFLINE=true cargo build --release --offline",
      "hooks": {
        "guard": "--cfg adlt_verif (library+binary hooks) and --cfg adlt_verif_sched (shuttle channel switch, library only)",
        "enable": "RUSTFLAGS=--cfg adlt_verif via /verif/mc/.cargo/config.toml (mc-seq/cli/remote); RUSTFLAGS='--cfg adlt_verif --cfg adlt_verif_sched' via /verif/mc-sched/.cargo/config.toml (scheduler engine)",
        "baseline_off_cmd": "cd /repo && cargo test --workspace --no-fail-fast --offline",
        "source_commits": list(reversed(hook_ids)),
        "add_only": True,
      },
      "engines": [
        {"name": "mc-sched", "path": "/verif/mc-sched", "serves_properties": ["C13", "C06"],
         "kind_free_text": "shuttle runtime + own bounded DFS scheduler over real adlt stage threads (cfg adlt_verif_sched)"},
        {"name": "mc-remote", "path": "/verif/mc/src/rem.rs", "serves_properties": ["C15", "C16"],
         "kind_free_text": "explorer in /verif/mc driving the hidden cfg(adlt_verif) subcommand 'adlt verif-driver' (real remote handler functions over an in-memory websocket, explicit message-arrival ticks)"},
        {"name": "mc-cli", "path": "/verif/mc/src/c14.rs", "serves_properties": ["C14"],
         "kind_free_text": "explorer in /verif/mc running the adlt binary built from the working tree (cfg adlt_verif) over an option x input product"},
        {"name": "mc-seq", "path": "/verif/mc", "serves_properties": [p for p in ALL if p in CHECKS and CHECKS[p][0]=="mc-seq"],
         "kind_free_text": "Rust explorers linked against /repo's library (cfg adlt_verif): exhaustive enumeration of input-shape products, operation sequences, deviation-bounded event streams and explicit-state BFS by re-execution, sharded over worker processes"},
      ],
      "checks": checks,
      "notes": "Exit codes of every check: 0 held on everything explored (KNOWN-FINDING lines possible), 1 VIOLATION, 2 machinery failure (never a verdict). known_findings.json is read-only at run time.",
      "not_applicable": [{"property_id": p, "reason": NOT_YET} for p in ALL if p not in CHECKS],
    }
    json.dump(m, open("/verif/MANIFEST.json","w"), indent=1)
    print("wrote MANIFEST.json with", len(checks), "checks")

main()
