#!/usr/bin/env python3
"""usage: bin/seed_store.py <seed-name> <campaign text> <what> <needs> [--first-miss] [--note <text>]
Writes /verif/seeded/<name>/meta.json from the confirm.log that bin/seed_eval.sh left there and appends the MATRIX row
(replacing an earlier row of the same seed)."""
import json, re, sys, os

name, campaign, what, needs = sys.argv[1:5]
rest = sys.argv[5:]
first_miss = '--first-miss' in rest
note = rest[rest.index('--note') + 1] if '--note' in rest else None
prop = name.split('-')[0]
d = f'/verif/seeded/{name}'
log = open(f'{d}/confirm.log').read().splitlines()
suite = [l for l in log if l.startswith(('PASS', 'FAIL'))]
demo = next(l for l in log if l.startswith('demo with change'))
m = re.match(r'demo with change: (\w+) ; without: (\w+)', demo)
checks = {}
for l in log:
    mm = re.match(r'check (C\d+) quick -> exit (\d+)', l)
    if mm:
        checks[mm.group(1)] = int(mm.group(2))
caught = [f'{c} quick' for c, rc in checks.items() if rc == 1]
# the property's own check first
caught.sort(key=lambda c: (not c.startswith(prop), c))
meta = {
    'property': prop,
    'origin': f'fresh sub-agent given only the property text, the sites of the earlier seeds to avoid, and its own scratch worktree ({campaign})',
    'what': what, 'needs': needs,
    'confirmed': {'existing_suite_with_change': suite, 'demo_with_change': m.group(1), 'demo_without_change': m.group(2)},
    'checks_run': checks, 'caught_by': caught,
    'caught_at_first_attempt': not first_miss,
}
if first_miss:
    meta['note'] = note or "missed by the property's own quick check at the first evaluation; caught after the strengthening described in DESIGN.md §10.5"
elif note:
    meta['note'] = note
json.dump(meta, open(f'{d}/meta.json', 'w'), indent=1)
first = 'yes' if not first_miss else 'no -> check strengthened, then caught'
if not caught:
    first = 'no'
row = f"| {name} | {prop} | {what} | {needs} | sub-agent ({campaign}) | {', '.join(caught) if caught else 'none'} | {first} |"
mp = '/verif/seeded/MATRIX.md'
lines = [l for l in open(mp).read().splitlines() if not l.startswith(f'| {name} |')]
lines.append(row)
open(mp, 'w').write('\n'.join(lines) + '\n')
print(row)
