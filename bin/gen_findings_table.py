#!/usr/bin/env python3
"""Regenerates the defect table of DESIGN.md section 10.3 from known_findings.json."""
import json, re
d = json.load(open('/verif/known_findings.json'))
rows = ["| property | id | status | clause / discriminator | what failed |", "|---|---|---|---|---|"]
for f in d['findings']:
    st = f['status'] + (' ' + f.get('commit', '') if f['status'] == 'fixed' else ' ')
    desc = re.sub(r'^(fixed|known): property=\S+ (\S+ )?', '', f['description']) if f['status'] == 'fixed' else re.sub(r'^KNOWN-FINDING: property=\S+ ', '', f['description'])
    rows.append(f"| {f['property']} | {f['id']} | {st} | `{f['clause']}` / `{f.get('disc','')}` | {desc} |")
p = '/verif/DESIGN.md'
s = open(p).read()
a = s.index("| property | id | status | clause / discriminator | what failed |")
b = s.index("The only `known` entry is the C08 heuristic limit")
s = s[:a] + "\n".join(rows) + "\n\n" + s[b:]
open(p, 'w').write(s)
print(len(rows) - 2, "rows")
